package c13

import (
	"encoding"
	"fmt"
	"reflect"
	"sort"
	"strings"
	"time"

	"pgregory.net/rapid"
)

// nodeKind classifies a position of a configuration schema.
type nodeKind int

// listElem is the pseudo key of "the single element of the list at the previous key".
const listElem = "[]"

const (
	kStruct  nodeKind = iota // struct-typed node (keys are fixed by the struct)
	kLeaf                    // settable leaf (scalar, text-unmarshaled type, []string, string map)
	kSkipped                 // a position whose type the generator does not write (counted)
	kList                    // a list whose elements are structs (written as a whole: 0..3 partially written elements)
)

// schemaNode is one position of a component's configuration schema, derived
// reflectively from the factory's default configuration.
type schemaNode struct {
	Path     []string // mapstructure key path below the component root
	Kind     nodeKind
	Type     reflect.Type // type of the field (pointer stripped: see Optional)
	Optional bool         // field is a pointer (nil == absent)
	UnderOpt int          // number of pointer-typed ancestors (incl. itself)
	Custom   bool         // the struct (or an ancestor up to the component root) has a custom Unmarshal
	OwnUnm   bool         // this struct node's own type implements confmap.Unmarshaler
	Squashed bool         // leaf/struct reached through at least one ,squash embedding
	OmitEmpt bool         // leaf field carries omitempty
	ListElem bool         // struct node standing for the element of a list of structs (Path ends in listElem)
	Why      string       // for kSkipped: reason

	Parent   *schemaNode   // nearest enclosing struct node (nil for the root)
	Children []*schemaNode // for struct nodes: positions directly below (squash-flattened)
	gen      func(t *rapid.T) Val
	Zero     *Val      // the zero value of the leaf's type, when the factory default there is NOT the zero value
	Elem     *compKind // for kList: the schema of one element
}

// listElemType: t is a slice of structs or of pointers to structs.
func listElemType(t reflect.Type) (reflect.Type, bool) {
	if t.Kind() != reflect.Slice {
		return nil, false
	}
	e := t.Elem()
	if e.Kind() == reflect.Pointer {
		e = e.Elem()
	}
	if e.Kind() != reflect.Struct || implementsTextUnmarshaler(e) {
		return nil, false
	}
	return e, true
}

func (n *schemaNode) key() string { return strings.Join(n.Path, "::") }

var (
	textUnmarshalerType = reflect.TypeOf((*encoding.TextUnmarshaler)(nil)).Elem()
	durationType        = reflect.TypeOf(time.Duration(0))
)

type tagInfo struct {
	name      string
	squash    bool
	remain    bool
	omitempty bool
	skip      bool
}

func parseTag(f reflect.StructField) tagInfo {
	ti := tagInfo{}
	tag, ok := f.Tag.Lookup("mapstructure")
	if !ok {
		ti.name = strings.ToLower(f.Name)
		return ti
	}
	parts := strings.Split(tag, ",")
	ti.name = parts[0]
	for _, o := range parts[1:] {
		switch o {
		case "squash":
			ti.squash = true
		case "remain":
			ti.remain = true
		case "omitempty":
			ti.omitempty = true
		}
	}
	if ti.name == "-" {
		ti.skip = true
	}
	if ti.name == "" && !ti.squash && !ti.remain {
		ti.name = strings.ToLower(f.Name)
	}
	return ti
}

func isThirdParty(t reflect.Type) bool {
	for t.Kind() == reflect.Pointer || t.Kind() == reflect.Slice || t.Kind() == reflect.Map {
		t = t.Elem()
	}
	return strings.Contains(t.PkgPath(), "go.opentelemetry.io/contrib/otelconf")
}

func implementsTextUnmarshaler(t reflect.Type) bool {
	return reflect.PointerTo(t).Implements(textUnmarshalerType)
}

func implementsUnmarshaler(t reflect.Type) bool {
	return reflect.PointerTo(t).Implements(unmarshalerType)
}

// leafable tells whether the generator knows how to write a value of type t
// (pointer already stripped).
func leafable(t reflect.Type) (bool, string) {
	if implementsTextUnmarshaler(t) {
		return true, ""
	}
	switch t.Kind() {
	case reflect.Bool, reflect.Int, reflect.Int8, reflect.Int16, reflect.Int32, reflect.Int64,
		reflect.Uint, reflect.Uint8, reflect.Uint16, reflect.Uint32, reflect.Uint64,
		reflect.Float32, reflect.Float64, reflect.String:
		return true, ""
	case reflect.Slice:
		if t.Elem().Kind() == reflect.String && !implementsTextUnmarshaler(t.Elem()) {
			return true, ""
		}
		return false, "slice of " + t.Elem().String()
	case reflect.Map:
		if t.Key().Kind() != reflect.String {
			return false, "map keyed by " + t.Key().String()
		}
		e := t.Elem()
		if e.Kind() == reflect.String {
			return true, ""
		}
		if e.Kind() == reflect.Pointer && e.Elem().Kind() == reflect.String {
			return true, ""
		}
		if e.Kind() == reflect.Interface {
			return true, ""
		}
		return false, "map of " + e.String()
	}
	return false, t.Kind().String()
}

// walkSchema derives the schema below a struct type.
func walkSchema(t reflect.Type) []*schemaNode { return walkSchemaMode(t, false) }

// walkSchemaMode: inElem=true derives the schema of a list element — third-party
// structs are walked like any other, nested lists of structs are not written.
func walkSchemaMode(t reflect.Type, inElem bool) []*schemaNode {
	var out []*schemaNode
	root := &schemaNode{Path: nil, Kind: kStruct, Type: t, OwnUnm: implementsUnmarshaler(t)}
	root.Custom = root.OwnUnm
	out = append(out, root)
	walkStruct(t, nil, 0, root.Custom, false, &out, map[reflect.Type]int{}, inElem)
	by := map[string]*schemaNode{}
	for _, n := range out {
		by[n.key()] = n
	}
	for _, n := range out[1:] {
		p := by[strings.Join(n.Path[:len(n.Path)-1], "::")]
		n.Parent = p
		if p != nil {
			p.Children = append(p.Children, n)
		}
	}
	return out
}

func walkStruct(t reflect.Type, path []string, underOpt int, custom, squashed bool, out *[]*schemaNode, seen map[reflect.Type]int, inElem bool) {
	if seen[t] > 1 {
		return
	}
	seen[t]++
	defer func() { seen[t]-- }()
	for i := 0; i < t.NumField(); i++ {
		f := t.Field(i)
		if !f.IsExported() {
			continue
		}
		ti := parseTag(f)
		if ti.skip || ti.remain {
			continue
		}
		ft := f.Type
		if ti.squash {
			for ft.Kind() == reflect.Pointer {
				ft = ft.Elem()
			}
			if ft.Kind() != reflect.Struct {
				continue
			}
			if isThirdParty(ft) && !inElem {
				// the third-party subtree is left out, but its keys must be known so
				// that an "unknown" key never collides with them
				for j := 0; j < ft.NumField(); j++ {
					sf := ft.Field(j)
					if !sf.IsExported() {
						continue
					}
					sti := parseTag(sf)
					p := append(append([]string{}, path...), sti.name)
					if _, ok := listElemType(sf.Type); ok {
						*out = append(*out, &schemaNode{Path: p, Kind: kList, Type: sf.Type, Squashed: true, Custom: custom})
						continue
					}
					*out = append(*out, &schemaNode{Path: p, Kind: kSkipped, Type: sf.Type, Why: "third-party otelconf subtree", Squashed: true})
				}
				continue
			}
			walkStruct(ft, path, underOpt, custom || implementsUnmarshaler(ft), true, out, seen, inElem)
			continue
		}
		p := append(append([]string{}, path...), ti.name)
		opt := false
		if ft.Kind() == reflect.Pointer {
			opt = true
			ft = ft.Elem()
		}
		uo := underOpt
		if opt {
			uo++
		}
		n := &schemaNode{Path: p, Type: ft, Optional: opt, UnderOpt: uo, Custom: custom, Squashed: squashed, OmitEmpt: ti.omitempty}
		_, isList := listElemType(ft)
		switch {
		case isList && !opt && inElem:
			n.Kind, n.Why = kSkipped, "nested list of structs"
		case isList && !opt:
			// a list of structs: written as a whole; its element is also a struct-typed
			// position where an unknown key can be placed (own structs only: the
			// third-party ones swallow unknown keys by design, `,remain`)
			n.Kind = kList
			*out = append(*out, n)
			if et, _ := listElemType(ft); !isThirdParty(et) && ft.Elem().Kind() == reflect.Struct {
				*out = append(*out, &schemaNode{Path: append(append([]string{}, p...), listElem), Kind: kStruct, Type: et, UnderOpt: uo,
					Custom: custom || implementsUnmarshaler(et), OwnUnm: implementsUnmarshaler(et), ListElem: true})
			}
			continue
		case isThirdParty(ft) && !inElem:
			n.Kind, n.Why = kSkipped, "third-party otelconf subtree"
		case ft.Kind() == reflect.Struct && !implementsTextUnmarshaler(ft):
			n.Kind = kStruct
			n.OwnUnm = implementsUnmarshaler(ft)
			n.Custom = custom || n.OwnUnm
			*out = append(*out, n)
			walkStruct(ft, p, uo, n.Custom, false, out, seen, inElem)
			continue
		default:
			if ok, why := leafable(ft); ok {
				n.Kind = kLeaf
			} else {
				n.Kind, n.Why = kSkipped, why
			}
		}
		*out = append(*out, n)
	}
}

// lookup reads the value at a key path from a typed configuration value,
// following mapstructure tags (squash embeddings are transparent).  ok=false
// when a nil pointer is met on the way (absent optional section).
func lookup(v reflect.Value, path []string) (reflect.Value, bool) {
	for v.Kind() == reflect.Pointer || v.Kind() == reflect.Interface {
		if v.IsNil() {
			return reflect.Value{}, false
		}
		v = v.Elem()
	}
	if len(path) == 0 {
		return v, true
	}
	switch v.Kind() {
	case reflect.Struct:
		t := v.Type()
		for i := 0; i < t.NumField(); i++ {
			f := t.Field(i)
			if !f.IsExported() {
				continue
			}
			ti := parseTag(f)
			if ti.skip || ti.remain {
				continue
			}
			if ti.squash {
				if r, ok := lookup(v.Field(i), path); ok {
					return r, true
				}
				continue
			}
			if ti.name == path[0] {
				return lookup(v.Field(i), path[1:])
			}
		}
		return reflect.Value{}, false
	case reflect.Map:
		for _, k := range v.MapKeys() {
			if fmt.Sprint(k.Interface()) == path[0] {
				return lookup(v.MapIndex(k), path[1:])
			}
		}
		return reflect.Value{}, false
	}
	return reflect.Value{}, false
}

// structKeys lists the keys a struct type accepts (squash-flattened).
func structKeys(t reflect.Type) []string {
	var ks []string
	for t.Kind() == reflect.Pointer {
		t = t.Elem()
	}
	if t.Kind() != reflect.Struct {
		return nil
	}
	for i := 0; i < t.NumField(); i++ {
		f := t.Field(i)
		if !f.IsExported() {
			continue
		}
		ti := parseTag(f)
		if ti.skip || ti.remain {
			continue
		}
		if ti.squash {
			ks = append(ks, structKeys(f.Type)...)
			continue
		}
		ks = append(ks, ti.name)
	}
	sort.Strings(ks)
	return ks
}
