package c13

import (
	"context"
	"encoding/json"
	"fmt"
	"io"

	"go.uber.org/zap"
	"go.uber.org/zap/zapcore"

	"go.opentelemetry.io/collector/component"

	"go.opentelemetry.io/collector/confmap"
	"go.opentelemetry.io/collector/confmap/provider/yamlprovider"
	"go.opentelemetry.io/collector/confmap/xconfmap"
	"go.opentelemetry.io/collector/otelcol"
	"go.opentelemetry.io/collector/verifharness/vt"
)

// loaded is the outcome of pushing one configuration document through the
// collector's own loading path.
type loaded struct {
	cfg     *otelcol.Config
	loadErr error // ConfigProvider.Get
	valErr  error // xconfmap.Validate (only when loadErr == nil)
	eff     map[string]any
	effErr  error
	panicV  any
	stack   string
}

func (l *loaded) err() error {
	if l.loadErr != nil {
		return l.loadErr
	}
	return l.valErr
}

// render serialises a document as JSON, which is YAML flow syntax: every
// string is quoted, so no scalar is re-typed by the YAML parser.
func render(doc map[string]any) (string, error) {
	b, err := json.Marshal(doc)
	if err != nil {
		return "", err
	}
	return string(b), nil
}

// loadDoc runs exactly what otelcol.Collector.setupConfigurationComponents
// does up to service construction: ConfigProvider.Get, xconfmap.Validate and
// confmap.New().Marshal(cfg).
func loadDoc(doc map[string]any, withEff bool) (l loaded) {
	return loadDocWith(theFactories, doc, withEff)
}

func loadDocWith(facs otelcol.Factories, doc map[string]any, withEff bool) (l loaded) {
	text, err := render(doc)
	if err != nil {
		l.loadErr = fmt.Errorf("harness: cannot render: %w", err)
		return l
	}
	l.panicV, l.stack = vt.Recover(func() {
		prov, err := otelcol.NewConfigProvider(otelcol.ConfigProviderSettings{ResolverSettings: confmap.ResolverSettings{
			URIs:              []string{"yaml:" + text},
			ProviderFactories: []confmap.ProviderFactory{yamlprovider.NewFactory()},
		}})
		if err != nil {
			l.loadErr = fmt.Errorf("NewConfigProvider: %w", err)
			return
		}
		defer func() { _ = prov.Shutdown(context.Background()) }()
		l.cfg, l.loadErr = prov.Get(context.Background(), facs)
		if l.loadErr != nil {
			return
		}
		l.valErr = xconfmap.Validate(l.cfg)
		if !withEff {
			return
		}
		c := confmap.New()
		if l.effErr = c.Marshal(l.cfg); l.effErr == nil {
			l.eff = c.ToStringMap()
		}
	})
	return l
}

// ---------------------------------------------------------------------------
// the public validation entry points

func entrySettings(uri string) otelcol.CollectorSettings {
	set := otelcol.CollectorSettings{
		BuildInfo:               component.NewDefaultBuildInfo(),
		Factories:               func() (otelcol.Factories, error) { return factories() },
		DisableGracefulShutdown: true,
		SkipSettingGRPCLogger:   true,
		LoggingOptions:          []zap.Option{zap.WrapCore(func(zapcore.Core) zapcore.Core { return zapcore.NewNopCore() })},
		ConfigProviderSettings: otelcol.ConfigProviderSettings{ResolverSettings: confmap.ResolverSettings{
			ProviderFactories: []confmap.ProviderFactory{yamlprovider.NewFactory()},
			DefaultScheme:     "yaml",
		}},
	}
	if uri != "" {
		set.ConfigProviderSettings.ResolverSettings.URIs = []string{uri}
	}
	return set
}

// entryOutcome is what one validation entry point said about a document.
type entryOutcome struct {
	err    error
	panicV any
	stack  string
}

// dryRun validates a document through otelcol.Collector.DryRun (what the
// `validate` sub-command calls).
func dryRun(text string) (o entryOutcome) {
	o.panicV, o.stack = vt.Recover(func() {
		col, err := otelcol.NewCollector(entrySettings("yaml:" + text))
		if err != nil {
			o.err = fmt.Errorf("NewCollector: %w", err)
			return
		}
		o.err = col.DryRun(context.Background())
	})
	return o
}

// validateCommand validates a document through the command line entry point:
// otelcol.NewCommand(settings) run with `validate --config=yaml:<doc>`.
func validateCommand(text string) (o entryOutcome) {
	o.panicV, o.stack = vt.Recover(func() {
		cmd := otelcol.NewCommand(entrySettings(""))
		cmd.SetArgs([]string{"validate", "--config=yaml:" + text})
		cmd.SetOut(io.Discard)
		cmd.SetErr(io.Discard)
		cmd.SilenceErrors = true
		o.err = cmd.ExecuteContext(context.Background())
	})
	return o
}
