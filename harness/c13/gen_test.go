package c13

import (
	"sort"
	"strings"

	"pgregory.net/rapid"
)

// Write is one written setting of a component (or of the service section).
type Write struct {
	P []string `json:"p"`           // key path below the component root
	V Val      `json:"v"`           // the value
	U string   `json:"u,omitempty"` // unit label: writes that validation couples share it; "#base" = required for validity
}

func (w Write) key() string { return strings.Join(w.P, "::") }

func (w Write) unit() string {
	if w.U != "" {
		return w.U
	}
	return w.key()
}

// Comp is one component instance of the generated configuration.
type Comp struct {
	Sec  string  `json:"sec"`
	Type string  `json:"type"`
	Name string  `json:"name,omitempty"`
	W    []Write `json:"w,omitempty"`
}

func (c Comp) ID() string {
	if c.Name == "" {
		return c.Type
	}
	return c.Type + "/" + c.Name
}

func (c Comp) kind() *compKind { return kindByName[c.Sec+"/"+c.Type] }

// Pipe is one pipeline of the service section.
type Pipe struct {
	ID string   `json:"id"`
	R  []string `json:"r"`
	P  []string `json:"p,omitempty"`
	E  []string `json:"e"`
}

// Script is one generated case: a valid configuration and at most one mistake.
type Script struct {
	Comps []Comp   `json:"comps"`
	Svc   []Write  `json:"svc,omitempty"` // settings below "service" (telemetry subtree)
	Pipes []Pipe   `json:"pipes"`
	Exts  []string `json:"exts,omitempty"` // service::extensions
	M     *Mistake `json:"mistake,omitempty"`
	Sweep string   `json:"sweep,omitempty"` // set by the enumerated sweeps
}

// ---------------------------------------------------------------------------
// write sets and fix-ups (coupled settings are made consistent together)

type wset struct {
	k *compKind
	m map[string]*Write
}

func newWset(k *compKind) *wset { return &wset{k: k, m: map[string]*Write{}} }

func (s *wset) has(p string) bool { _, ok := s.m[p]; return ok }

func (s *wset) val(p string) string {
	if w, ok := s.m[p]; ok {
		return w.V.S
	}
	return ""
}

func (s *wset) set(p string, v Val, unit string) {
	s.m[p] = &Write{P: strings.Split(p, "::"), V: v, U: unit}
}

// put writes a generated valid value at a leaf (no-op when the leaf is unknown).
func (s *wset) put(t *rapid.T, p string, unit string) {
	n := s.k.byPath[p]
	if n == nil || n.Kind != kLeaf || n.gen == nil {
		return
	}
	s.set(p, n.gen(t), unit)
}

func (s *wset) del(p string) { delete(s.m, p) }

func (s *wset) under(prefix string) []string {
	var out []string
	for p := range s.m {
		if strings.HasPrefix(p, prefix+"::") {
			out = append(out, p)
		}
	}
	sort.Strings(out)
	return out
}

func (s *wset) label(p, unit string) {
	if w, ok := s.m[p]; ok && w.U != "#base" {
		w.U = unit
	}
}

func (s *wset) writes() []Write {
	ps := make([]string, 0, len(s.m))
	for p := range s.m {
		ps = append(ps, p)
	}
	sort.Strings(ps)
	out := make([]Write, 0, len(ps))
	for _, p := range ps {
		out = append(out, *s.m[p])
	}
	return out
}

func join(prefix, key string) string {
	if prefix == "" {
		return key
	}
	return prefix + "::" + key
}

// fixup makes the drawn writes of one component jointly valid: the rules are
// read off the Validate methods (and the three custom Unmarshal methods that
// couple keys).  Whatever it gets wrong is caught by the acceptance guard and
// counted, never reported.
func fixup(t *rapid.T, s *wset) {
	k := s.k
	for _, n := range k.Structs {
		p := n.key()
		switch n.Type.String() {
		case "configtls.ClientConfig", "configtls.ServerConfig":
			// "provide either a CA file or the PEM-encoded string, but not both"
			if s.has(join(p, "ca_file")) && s.has(join(p, "ca_pem")) {
				if rapid.Bool().Draw(t, "keep-ca-file") {
					s.del(join(p, "ca_pem"))
				} else {
					s.del(join(p, "ca_file"))
				}
			}
		case "queuebatch.Config":
			batch := s.under(join(p, "batch"))
			sizer, storage, wfr := join(p, "sizer"), join(p, "storage"), join(p, "wait_for_result")
			if s.has(storage) && len(batch) > 0 {
				// storage wants the requests sizer, batch wants items|bytes
				if rapid.Bool().Draw(t, "keep-storage") {
					for _, b := range batch {
						s.del(b)
					}
					batch = nil
				} else {
					s.del(storage)
				}
			}
			if s.has(storage) {
				if s.has(sizer) {
					s.set(sizer, vText("requests"), "")
				}
				if s.has(wfr) {
					s.set(wfr, vBool(false), "")
				}
			}
			if len(batch) > 0 {
				if !s.has(join(p, "batch::flush_timeout")) {
					s.put(t, join(p, "batch::flush_timeout"), "")
				}
				if !s.has(sizer) || s.val(sizer) == "requests" {
					s.set(sizer, vText(rapid.SampledFrom([]string{"items", "bytes"}).Draw(t, "batch-sizer")), "")
				}
			}
			// deprecated alias: `blocking` overrides `block_on_overflow`
			if s.has(join(p, "blocking")) && s.has(join(p, "block_on_overflow")) {
				s.set(join(p, "block_on_overflow"), s.m[join(p, "blocking")].V, "")
			}
			for _, q := range append(s.under(join(p, "batch")), sizer, storage, wfr, join(p, "blocking"), join(p, "block_on_overflow")) {
				s.label(q, p)
			}
		}
	}
	if k == serviceKind {
		// telemetry.Config.Validate: readers must exist unless level is none; views need level detailed
		readers, views, level := "telemetry::metrics::readers", "telemetry::metrics::views", "telemetry::metrics::level"
		noReaders := s.has(readers) && len(s.m[readers].V.E) == 0
		if noReaders {
			s.del(views)
			s.set(level, vText("none"), "")
		} else if s.has(views) {
			s.set(level, vText("detailed"), "")
		}
		for _, q := range []string{readers, views, level} {
			if s.has(readers) || s.has(views) {
				s.label(q, "telemetry::metrics")
			}
		}
	}
	switch k.name() {
	case "exporters/otlp":
		if !s.has("endpoint") {
			s.put(t, "endpoint", "")
		}
		s.m["endpoint"].U = "#base"
	case "exporters/otlphttp":
		if !s.has("endpoint") {
			s.put(t, "endpoint", "")
		}
		s.m["endpoint"].U = "#base"
		// compression level must suit the compression type (default gzip)
		if s.has("compression_params::level") {
			switch s.val("compression") {
			case "snappy", "lz4":
				s.set("compression_params::level", vInt(0), "")
			}
			s.label("compression", "compression")
			s.label("compression_params::level", "compression")
		}
	case "processors/memory_limiter", "extensions/memory_limiter":
		// the soft-limited GC interval must not be below the hard-limited one (default 0s)
		if soft, hard := "min_gc_interval_when_soft_limited", "min_gc_interval_when_hard_limited"; s.has(soft) && s.has(hard) {
			if s.val(soft) == "0s" {
				s.set(hard, vDur(0), "")
			}
			s.label(soft, "gc-intervals")
			s.label(hard, "gc-intervals")
		}
		if !s.has("check_interval") {
			s.put(t, "check_interval", "")
		}
		if !s.has("limit_mib") && !s.has("limit_percentage") {
			s.put(t, rapid.SampledFrom([]string{"limit_mib", "limit_percentage"}).Draw(t, "limit"), "")
		}
		for _, p := range []string{"check_interval", "limit_mib", "limit_percentage"} {
			if s.has(p) {
				s.m[p].U = "#base"
			}
		}
	case "receivers/otlp":
		// a protocol is enabled iff its key is present; a null body enables it with its defaults
		g, h := len(s.under("protocols::grpc")) > 0, len(s.under("protocols::http")) > 0
		mode := rapid.IntRange(0, 2).Draw(t, "protocols")
		marker := Val{K: rapid.SampledFrom([]string{"null", "emptymap"}).Draw(t, "marker")}
		wantG, wantH := mode == 2, mode == 2
		if !g && !h {
			wantG, wantH = mode != 1, mode != 0
		}
		if !g && wantG {
			s.set("protocols::grpc", marker, "#base")
		}
		if !h && wantH {
			s.set("protocols::http", marker, "#base")
		}
	}
}

// genWrites draws the written settings of one instance of kind k.
// density (percent) is the chance of each leaf; struct sections are entered
// with their own chance, so that deep leaves come in groups of siblings.
func genWrites(t *rapid.T, k *compKind, density int) []Write {
	s := newWset(k)
	if len(k.Nodes) > 0 {
		genNode(t, s, k.Nodes[0], density)
	}
	fixup(t, s)
	return s.writes()
}

// genList draws a list value: n elements, each with only a few of its keys written.
func genList(t *rapid.T, n *schemaNode, elems int) Val {
	v := Val{K: "list", E: [][]Write{}}
	for i := 0; i < elems; i++ {
		es := newWset(n.Elem)
		if len(n.Elem.Nodes) > 0 {
			genElemNode(t, es, n.Elem.Nodes[0], rapid.SampledFrom([]int{15, 35, 60}).Draw(t, "elem-density"), 0)
		}
		ws := es.writes()
		if ws == nil {
			ws = []Write{}
		}
		v.E = append(v.E, ws)
	}
	return v
}

// genElemNode draws the written keys of one list element: a few keys, most left unwritten.
// (rapid's integer draws favour small values: a nominal 85 is an empirical ~50 %.)
func genElemNode(t *rapid.T, s *wset, n *schemaNode, density, depth int) {
	for _, c := range n.Children {
		switch c.Kind {
		case kLeaf:
			if chance(t, "ew:"+c.key(), density) {
				s.set(c.key(), c.gen(t), "")
			}
		case kStruct:
			enter := 85
			if depth > 0 {
				enter = 65
			}
			if chance(t, "es:"+c.key(), enter) {
				genElemNode(t, s, c, density, depth+1)
			}
		}
	}
}

// genFocusedList writes exactly one list setting with the given number of elements.
func genFocusedList(t *rapid.T, k *compKind, list string, elems int) []Write {
	s := newWset(k)
	if n := k.byPath[list]; n != nil && n.Kind == kList {
		s.set(list, genList(t, n, elems), "")
	}
	fixup(t, s)
	return s.writes()
}

// genFocused writes exactly one chosen leaf (plus whatever validity requires).
func genFocused(t *rapid.T, k *compKind, leaf string) []Write {
	s := newWset(k)
	s.put(t, leaf, "")
	fixup(t, s)
	return s.writes()
}

func chance(t *rapid.T, label string, pct int) bool {
	// shrinks towards "not taken"
	return rapid.IntRange(0, 99).Draw(t, label) >= 100-pct
}

func genNode(t *rapid.T, s *wset, n *schemaNode, density int) {
	for _, c := range n.Children {
		switch c.Kind {
		case kLeaf:
			d := density
			if c.Custom {
				d += 10
			}
			if chance(t, "w:"+c.key(), d) {
				s.set(c.key(), c.gen(t), "")
			}
		case kList:
			if chance(t, "l:"+c.key(), density+5) {
				s.set(c.key(), genList(t, c, rapid.IntRange(0, 3).Draw(t, "elems")), "")
			}
		case kStruct:
			if c.ListElem {
				continue // list elements are not written (only used as unknown-key sites)
			}
			enter := 45
			if c.Custom {
				enter = 65
			}
			if chance(t, "s:"+c.key(), enter) {
				genNode(t, s, c, density+10)
			}
		}
	}
}

// ---------------------------------------------------------------------------
// whole configurations

type weighted struct {
	typ string
	w   int
}

func pickType(t *rapid.T, label string, ws []weighted) string {
	var pool []string
	for _, w := range ws {
		for i := 0; i < w.w; i++ {
			pool = append(pool, w.typ)
		}
	}
	return rapid.SampledFrom(pool).Draw(t, label)
}

var (
	recvTypes = []weighted{{"otlp", 4}, {"nop", 1}}
	expTypes  = []weighted{{"otlp", 4}, {"otlphttp", 4}, {"debug", 1}, {"nop", 1}}
	procTypes = []weighted{{"batch", 1}, {"memory_limiter", 1}}
	connTypes = []weighted{{"forward", 1}, {"nop", 1}}
	extTypes  = []weighted{{"zpages", 3}, {"memory_limiter", 1}}
	signals   = []string{"traces", "metrics", "logs"}
)

func genComps(t *rapid.T, sec string, types []weighted, min, max int, used map[string]bool) []Comp {
	n := rapid.IntRange(min, max).Draw(t, sec+"-n")
	var out []Comp
	for i := 0; i < n; i++ {
		c := Comp{Sec: sec, Type: pickType(t, sec+"-type", types)}
		if rapid.IntRange(0, 2).Draw(t, "named") > 0 {
			c.Name = genName(t, "name")
		}
		if sec == secConnectors {
			c.Name = "conn" + c.Name // never the id of a receiver/exporter
		} else if strings.HasPrefix(c.Name, "conn") {
			c.Name = "x" + c.Name
		}
		if used[sec+"|"+c.ID()] {
			continue
		}
		used[sec+"|"+c.ID()] = true
		density := rapid.SampledFrom([]int{0, 6, 15, 30}).Draw(t, "density")
		c.W = genWrites(t, c.kind(), density)
		out = append(out, c)
	}
	return out
}

func idsOf(cs []Comp, sec string) []string {
	var out []string
	for _, c := range cs {
		if c.Sec == sec {
			out = append(out, c.ID())
		}
	}
	return out
}

func genSubset(t *rapid.T, label string, pool []string, min int) []string {
	if len(pool) == 0 {
		return nil
	}
	if min > len(pool) {
		min = len(pool)
	}
	return pickSome(t, label, pool, min)
}

// genBase draws a valid configuration.
func genBase(t *rapid.T) Script {
	var s Script
	used := map[string]bool{}
	s.Comps = append(s.Comps, genComps(t, secReceivers, recvTypes, 1, 2, used)...)
	if len(idsOf(s.Comps, secReceivers)) == 0 {
		s.Comps = append(s.Comps, Comp{Sec: secReceivers, Type: "nop", Name: "r0"})
	}
	ex := genComps(t, secExporters, expTypes, 1, 3, used)
	if len(ex) == 0 {
		ex = []Comp{{Sec: secExporters, Type: "nop", Name: "e0"}}
	}
	s.Comps = append(s.Comps, ex...)
	s.Comps = append(s.Comps, genComps(t, secProcessors, procTypes, 0, 2, used)...)
	s.Comps = append(s.Comps, genComps(t, secConnectors, connTypes, 0, 1, used)...)
	s.Comps = append(s.Comps, genComps(t, secExtensions, extTypes, 0, 2, used)...)
	s.Svc = genWrites(t, serviceKind, rapid.SampledFrom([]int{0, 10, 30}).Draw(t, "svc-density"))

	recv := append(idsOf(s.Comps, secReceivers), idsOf(s.Comps, secConnectors)...)
	expo := append(idsOf(s.Comps, secExporters), idsOf(s.Comps, secConnectors)...)
	proc := idsOf(s.Comps, secProcessors)
	np := rapid.IntRange(1, 3).Draw(t, "pipes")
	seen := map[string]bool{}
	for i := 0; i < np; i++ {
		id := rapid.SampledFrom(signals).Draw(t, "signal")
		if rapid.IntRange(0, 2).Draw(t, "pnamed") == 0 {
			id += "/" + genName(t, "pname")
		}
		if seen[id] {
			continue
		}
		seen[id] = true
		s.Pipes = append(s.Pipes, Pipe{ID: id, R: genSubset(t, "pr", recv, 1), P: genSubset(t, "pp", proc, 0), E: genSubset(t, "pe", expo, 1)})
	}
	s.Exts = genSubset(t, "exts", idsOf(s.Comps, secExtensions), 0)
	return s
}

// ---------------------------------------------------------------------------
// document assembly

func setPath(m map[string]any, path []string, v any) {
	for _, k := range path[:len(path)-1] {
		sub, ok := m[k].(map[string]any)
		if !ok {
			sub = map[string]any{}
			m[k] = sub
		}
		m = sub
	}
	m[path[len(path)-1]] = v
}

// descend returns the map at path, creating maps on the way (a null or scalar
// in the way is replaced).
func descend(m map[string]any, path []string) map[string]any {
	for i, k := range path {
		if k == listElem {
			continue
		}
		if i+1 < len(path) && path[i+1] == listElem {
			sub := map[string]any{}
			m[k] = []any{sub}
			m = sub
			continue
		}
		sub, ok := m[k].(map[string]any)
		if !ok {
			sub = map[string]any{}
			m[k] = sub
		}
		m = sub
	}
	return m
}

func bodyOf(ws []Write) map[string]any {
	m := map[string]any{}
	// shallow paths first, so that a "null" section marker never hides deeper writes
	sorted := append([]Write{}, ws...)
	sort.SliceStable(sorted, func(i, j int) bool { return len(sorted[i].P) < len(sorted[j].P) })
	for _, w := range sorted {
		setPath(m, w.P, w.V.yaml())
	}
	return m
}

func compBody(ws []Write) any {
	if len(ws) == 0 {
		return nil // "nop:" — a component with all defaults
	}
	return bodyOf(ws)
}

func strList(l []string) []any {
	out := make([]any, 0, len(l))
	for _, s := range l {
		out = append(out, s)
	}
	return out
}

// baseDoc assembles the document of the valid configuration.
func (s *Script) baseDoc() map[string]any {
	doc := map[string]any{}
	for _, c := range s.Comps {
		sec, ok := doc[c.Sec].(map[string]any)
		if !ok {
			sec = map[string]any{}
			doc[c.Sec] = sec
		}
		sec[c.ID()] = compBody(c.W)
	}
	svc := bodyOf(s.Svc)
	pipes := map[string]any{}
	for _, p := range s.Pipes {
		pm := map[string]any{"receivers": strList(p.R), "exporters": strList(p.E)}
		if len(p.P) > 0 {
			pm["processors"] = strList(p.P)
		}
		pipes[p.ID] = pm
	}
	svc["pipelines"] = pipes
	if len(s.Exts) > 0 {
		svc["extensions"] = strList(s.Exts)
	}
	doc[secService] = svc
	return doc
}
