package c13

import (
	"testing"

	"go.opentelemetry.io/collector/verifharness/vt"
)

func TestMain(m *testing.M) { vt.Main(m) }
