#!/opt/veriftools/pyvenv/bin/python
import json, sys, glob, jsonschema
man = json.load(open('/verif/MANIFEST.json'))
jsonschema.validate(man, json.load(open('/root/.vp/MANIFEST.schema.json')))
es = json.load(open('/root/.vp/EVIDENCE.schema.json'))
bad = 0
for c in man['checks']:
    p = '/verif/' + c['evidence_file']
    try:
        jsonschema.validate(json.load(open(p)), es)
    except Exception as e:
        bad += 1
        print('EVIDENCE INVALID', p, str(e)[:200])
print('manifest valid; evidence problems:', bad)
